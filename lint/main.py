"""bin/check entry: decide one property on /repo's current working tree."""
import argparse
import importlib
import os
import sys
import traceback

from . import extract, facts, report


class Ctx:
    def __init__(self, tier, config="default", root=None):
        self.tier = tier
        self.config = config
        self.root = root
        self._dir = None
        self._progs = {}

    @property
    def dir(self):
        if self._dir is None:
            self._dir = extract.facts_dir(self.config, root=self.root)
        return self._dir

    def prog(self, key):
        if key not in self._progs:
            self._progs[key] = facts.load(self.dir, key)
        return self._progs[key]

    @property
    def lib(self):
        return self.prog("pumpkin_solver-rlib")

    @property
    def bin(self):
        b = self.prog("pumpkin_solver-executable")
        if not b.ext:
            b.ext = [self.lib, self.drcp]
        return b

    @property
    def drcp(self):
        return self.prog("drcp_format-rlib")

    def loaded(self):
        return list(self._progs.values())


def run_rule(led, rid, text, fn, *args):
    """Evaluate one rule; a vanished anchor or a crash of the rule fails closed."""
    led.rule(rid, text)
    seen = getattr(led, "_rule_fns", None)
    if seen is None:
        seen = led._rule_fns = set()
    seen.add(getattr(fn, "__qualname__", str(fn)) + "@" + getattr(fn, "__module__", ""))
    try:
        fn(led, rid, *args)
    except facts.AnchorMissing as e:
        led.anchor_missing(rid, e.what)
    except Exception as e:  # noqa
        tb = traceback.format_exc()
        led.bad(rid, "rule-not-evaluable:%s" % type(e).__name__, None,
                "the rule could not be evaluated on this tree (shape of the anchored code changed "
                "beyond what the rule understands): %s\n%s" % (e, tb[-1500:]))


def decide(prop, tier, seed, config="default", root=None):
    led = report.Ledger(prop, tier, seed)
    ctx = Ctx(tier, config, root)
    mod = importlib.import_module("lint.props." + prop)
    try:
        mod.run(ctx, led)
    except facts.AnchorMissing as e:
        led.anchor_missing("setup", e.what)
    nf = sum(len(p.fns) for p in ctx.loaded())
    nc = sum(p.header["n_calls"] for p in ctx.loaded())
    return led, ctx, nf, nc


def main(argv=None):
    ap = argparse.ArgumentParser()
    ap.add_argument("prop")
    ap.add_argument("--tier", default=os.environ.get("VERIF_TIER", "quick"))
    ap.add_argument("--replay", default=None)
    a = ap.parse_args(argv)
    seed = int(os.environ.get("VERIF_SEED", "0") or 0)
    if a.replay:
        # a static verdict is replayed by re-running the rule on the current tree; the report
        # names the construct
        try:
            with open(a.replay) as fh:
                sys.stdout.write(fh.read() + "\n")
        except OSError:
            pass
    try:
        led, ctx, nf, nc = decide(a.prop, a.tier, seed)
        extra = None
        if a.tier == "thorough":
            from . import thorough
            extra = thorough.run(a.prop, led, seed)
    except extract.ExtractionError as e:
        print("CHECKER-ERROR: property=%s facts could not be extracted: %s" % (a.prop, e))
        return 2
    mod = importlib.import_module("lint.props." + a.prop)
    return report.finish(led, nf, nc, extra=extra, level_text=getattr(mod, "LEVEL", ""))


if __name__ == "__main__":
    sys.exit(main())

"""Control-flow graph over a function's MIR with explicit edge nodes for every SwitchInt edge.

Nodes 0..n-1 are basic blocks; nodes n.. are switch edges, so that "dominated by the true edge of
this branch" is ordinary dominance by the edge node.  Unwind edges and cleanup blocks are left
out: a panic is not a result.
"""


class Edge:
    __slots__ = ("node", "src", "dst", "value", "others")

    def __init__(self, node, src, dst, value, others):
        self.node = node      # node id of this edge
        self.src = src        # switch block
        self.dst = dst        # target block
        self.value = value    # int, or None for `otherwise`
        self.others = others  # for `otherwise`: the explicit values excluded


class CFG:
    def __init__(self, fn):
        self.fn = fn
        n = fn.n
        self.n = n
        self.succ = {}
        self.edges = {}      # switch bb -> [Edge]
        self.edge_nodes = {}  # node id -> Edge
        nxt = n
        for b in fn.blocks:
            i = b["id"]
            t = b["term"]
            k = t["t"]
            if b.get("cleanup"):
                self.succ[i] = []
                continue
            if k == "goto":
                self.succ[i] = [t["target"]]
            elif k == "switch":
                es = []
                vals = [v for v, _ in t["targets"]]
                for v, tgt in t["targets"]:
                    e = Edge(nxt, i, tgt, v, None)
                    nxt += 1
                    es.append(e)
                e = Edge(nxt, i, t["otherwise"], None, vals)
                nxt += 1
                es.append(e)
                self.edges[i] = es
                self.succ[i] = [e.node for e in es]
                for e in es:
                    self.edge_nodes[e.node] = e
                    self.succ[e.node] = [e.dst]
            elif k in ("call", "assert", "drop"):
                tg = t.get("target")
                self.succ[i] = [tg] if tg is not None else []
            else:  # return, unreachable, resume, terminate, tailcall
                self.succ[i] = []
        self.total = nxt
        self.pred = {i: [] for i in range(self.total)}
        for u, vs in self.succ.items():
            for v in vs:
                self.pred[v].append(u)
        self._idom = None
        self._ipdom = None
        self.returns = [b["id"] for b in fn.blocks
                        if b["term"]["t"] == "return" and not b.get("cleanup")]

    # -----------------------------------------------------------------------------------------
    def reachable(self, starts, avoid=(), include_starts=True):
        """Nodes reachable from `starts` without entering a node in `avoid`."""
        avoid = set(avoid)
        seen = set()
        work = []
        for s in starts:
            if include_starts:
                if s not in avoid:
                    work.append(s)
            else:
                for v in self.succ.get(s, []):
                    if v not in avoid:
                        work.append(v)
        while work:
            u = work.pop()
            if u in seen:
                continue
            seen.add(u)
            for v in self.succ.get(u, []):
                if v not in seen and v not in avoid:
                    work.append(v)
        return seen

    def reaches(self, src, dsts, avoid=(), strict=True):
        """Is some node of dsts reachable from src (strict: after leaving src) avoiding `avoid`?"""
        r = self.reachable([src], avoid=avoid, include_starts=not strict)
        return bool(r & set(dsts))

    def path(self, src, dsts, avoid=(), strict=True):
        """Some shortest path (list of block ids) from src to a node in dsts avoiding `avoid`."""
        from collections import deque
        avoid = set(avoid)
        dsts = set(dsts)
        START = object()
        prev = {}
        q = deque()
        if strict:
            for v in self.succ.get(src, []):
                if v not in avoid and v not in prev:
                    prev[v] = START
                    q.append(v)
        else:
            prev[src] = START
            q.append(src)
        while q:
            u = q.popleft()
            if u in dsts:
                p = [u]
                while prev[p[-1]] is not START:
                    p.append(prev[p[-1]])
                if strict:
                    p.append(src)
                p.reverse()
                return [x for x in p if x < self.n]
            for v in self.succ.get(u, []):
                if v not in avoid and v not in prev:
                    prev[v] = u
                    q.append(v)
        return None

    # -----------------------------------------------------------------------------------------
    def _dominators(self, succ, pred, entry, nodes):
        # Cooper–Harvey–Kennedy
        order = []
        seen = set()
        stack = [(entry, iter(succ.get(entry, [])))]
        seen.add(entry)
        while stack:
            u, it = stack[-1]
            adv = False
            for v in it:
                if v not in seen:
                    seen.add(v)
                    stack.append((v, iter(succ.get(v, []))))
                    adv = True
                    break
            if not adv:
                order.append(u)
                stack.pop()
        rpo = list(reversed(order))
        idx = {u: i for i, u in enumerate(rpo)}
        idom = {entry: entry}
        changed = True

        def intersect(a, b):
            while a != b:
                while idx[a] > idx[b]:
                    a = idom[a]
                while idx[b] > idx[a]:
                    b = idom[b]
            return a
        while changed:
            changed = False
            for u in rpo[1:]:
                new = None
                for p in pred.get(u, []):
                    if p in idom:
                        new = p if new is None else intersect(p, new)
                if new is not None and idom.get(u) != new:
                    idom[u] = new
                    changed = True
        return idom

    @property
    def idom(self):
        if self._idom is None:
            self._idom = self._dominators(self.succ, self.pred, 0, range(self.total))
        return self._idom

    def dominates(self, a, b):
        """a dominates b (reflexive).  Unreachable b: vacuously dominated (returns True)."""
        idom = self.idom
        if b not in idom:
            return True
        if a not in idom:
            return False
        while True:
            if a == b:
                return True
            p = idom[b]
            if p == b:
                return False
            b = p

    @property
    def ipdom(self):
        if self._ipdom is None:
            EXIT = -1
            succ = {}
            pred = {}
            for u, vs in self.succ.items():
                for v in vs:
                    succ.setdefault(v, []).append(u)
                    pred.setdefault(u, []).append(v)
            for r in self.returns:
                succ.setdefault(EXIT, []).append(r)
                pred.setdefault(r, []).append(EXIT)
            self._ipdom = self._dominators(succ, pred, EXIT, None)
        return self._ipdom

    def postdominates(self, a, b):
        """every path from b to a return passes a (reflexive)"""
        ip = self.ipdom
        if b not in ip:
            return True   # b never returns
        if a not in ip:
            return False
        while True:
            if a == b:
                return True
            p = ip[b]
            if p == b or p == -1:
                return a == p
            b = p

    def reachable_from_entry(self):
        return self.reachable([0])

    def loop_heads(self):
        """blocks that are targets of a back edge (dst dominates src)"""
        heads = set()
        for u, vs in self.succ.items():
            for v in vs:
                if v < self.n and self.dominates(v, u) and u in self.idom:
                    heads.add(v)
        return heads

    def in_loop(self, bb):
        """is bb on a cycle?"""
        return self.reaches(bb, [bb], strict=True)

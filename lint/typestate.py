"""TYPESTATE: a finite abstract interpreter for the solver life-cycle.

Abstract solver state  st = (S, L, X):
   S  variant of CSPSolverStateInternal (read from / written to the field `internal_state`)
   L  decision level: 0 or '+'
   X  "the empty nogood has been logged" (0/1) — used by C06-P4
Every world is concrete in st, so life-cycle predicates evaluate deterministically; values of
locals are tracked as small tags (enum variants, booleans, the level, small integers, closures).
Transfer functions of `declare_*` / `is_*` are not hard-coded: they are interpreted from their MIR
(assignment to / discriminant read of the `internal_state` field).  Only the trail level is
primitive: Assignments::{increase_decision_level, get_decision_level, synchronise} and the solver's
`backtrack`.

Branches whose condition is unknown fork; successors from which no normal return is reachable
(assert-failure regions) are pruned at such forks — a data-dependent assertion is assumed to hold.
A diverging call that is nevertheless reached was therefore reached by decisions that depend only
on the abstract state: a definite life-cycle panic.
"""
from .facts import op_place, AnchorMissing

STATE_FIELD = "internal_state"
UNKNOWN = None


class Panic:
    __slots__ = ("fn", "bb", "span", "st", "callee", "stack")

    def __init__(self, fn, bb, span, st, callee, stack):
        self.fn = fn
        self.bb = bb
        self.span = span
        self.st = st
        self.callee = callee
        self.stack = stack


class Interp:
    def __init__(self, prog, state_adt="CSPSolverStateInternal", track_x=None, max_iter=6,
                 bool_model=None):
        self.p = prog
        self.adt = prog.adt(state_adt)
        self.adt_path = self.adt["path"]
        self.variants = [v["name"] for v in self.adt["variants"]]
        self.memo = {}
        self.prev = {}
        self.in_progress = set()
        self.incomplete = False
        self.panics = {}          # key -> Panic
        self.stack = []
        self.track_x = track_x or (lambda call, st: st)   # hook: call -> st transformer
        self.bool_model = bool_model   # hook: (caller fn, call) -> True / False / None
        self.relevant = self._relevant()
        self.steps = 0
        self.ext_discr = {}
        self.fn_runs = 0
        self.reached = {}         # fn def -> set of entry st
        self.transitions = {}     # (old S, old L, new S) -> (fn def, file:line)

    # ---------------------------------------------------------------------------------------
    def _touches_state(self, f):
        for b in f.blocks:
            for s in b["stmts"]:
                for key in ("dst", "place"):
                    pl = s.get(key)
                    if pl and any(e.get("name") == STATE_FIELD for e in pl["proj"]):
                        return True
                rv = s.get("rv")
                if rv:
                    pl = rv.get("place")
                    if pl and any(e.get("name") == STATE_FIELD for e in pl["proj"]):
                        return True
        return False

    LEVEL_PRIMS = ("Assignments::increase_decision_level", "Assignments::get_decision_level",
                   "Assignments::synchronise", "ConstraintSatisfactionSolver::backtrack")

    def is_level_prim(self, d):
        return d is not None and any(d.endswith(x) for x in self.LEVEL_PRIMS)

    def _writes_state(self, f):
        for b in f.blocks:
            for s in b["stmts"]:
                for key in ("dst", "place"):
                    pl = s.get(key)
                    if pl and s["s"] in ("assign", "setdiscr") and \
                            any(e.get("name") == STATE_FIELD for e in pl["proj"]):
                        return True
        return False

    MUTATORS = ("Assignments::increase_decision_level", "Assignments::synchronise",
                "ConstraintSatisfactionSolver::backtrack")

    def _relevant(self):
        p = self.p
        base = set()
        observers = set()
        for f in p.fns.values():
            if self._writes_state(f) or any(f.defn.endswith(x) for x in self.MUTATORS):
                base.add(f.defn)
            elif self._touches_state(f) or (f.self_adt or "").endswith("::CSPSolverState"):
                base.add(f.defn)        # life-cycle predicates: whoever asks them is relevant
            elif self.is_level_prim(f.defn) or \
                    f.defn.endswith("ConstraintSatisfactionSolver::get_decision_level"):
                observers.add(f.defn)   # level queries are answered but do not spread relevance
        # reverse reachability over the call graph (closures count as part of their parent and
        # as callees of whoever receives them)
        callers = {}
        for f in p.fns.values():
            for c in f.calls:
                for g in p.callees(c):
                    callers.setdefault(g.defn, set()).add(f.defn)
            if f.direct_parent:
                callers.setdefault(f.defn, set()).add(f.direct_parent)
        seen = set(base)
        work = list(base)
        while work:
            d = work.pop()
            for c in callers.get(d, ()):
                if c not in seen:
                    seen.add(c)
                    work.append(c)
        return seen | observers

    # ---------------------------------------------------------------------------------------
    def summary(self, fn, st, argtags=()):
        key = (fn.defn, st, argtags)
        if key in self.memo:
            return self.memo[key]
        if key in self.in_progress:
            self.incomplete = True
            return self.prev.get(key, frozenset())
        self.in_progress.add(key)
        self.stack.append(fn.defn)
        try:
            res = self._run(fn, st, argtags)
        finally:
            self.stack.pop()
            self.in_progress.discard(key)
        self.memo[key] = res
        return res

    def fixpoint(self, thunk, max_rounds=6):
        """run thunk() until all summaries are stable"""
        for _ in range(max_rounds):
            self.incomplete = False
            self.prev = dict(self.memo)
            self.memo = {}
            out = thunk()
            if not self.incomplete or self.prev == self.memo:
                return out
        return out

    # ---------------------------------------------------------------------------------------
    def _panic_only(self, fn):
        """blocks from which no return is reachable"""
        cache = getattr(fn, "_panic_only", None)
        if cache is not None:
            return cache
        cfg = fn.cfg
        good = set()
        work = list(cfg.returns)
        pred = cfg.pred
        while work:
            u = work.pop()
            if u in good:
                continue
            good.add(u)
            for v in pred.get(u, []):
                if v not in good:
                    work.append(v)
        po = {i for i in range(cfg.total) if i not in good}
        fn._panic_only = po
        return po

    def _liveness(self, fn):
        """live-in sets of locals per block (backward may-analysis)"""
        cache = getattr(fn, "_live_in", None)
        if cache is not None:
            return cache
        from .flow import _rv_locals
        use, defs = {}, {}
        for b in fn.blocks:
            u, d = set(), set()

            def rd(l):
                if l not in d:
                    u.add(l)

            def rd_place(pl):
                rd(pl["local"])
                for e in pl["proj"]:
                    if "index" in e:
                        rd(e["index"])

            def rd_op(o):
                pl = op_place(o)
                if pl is not None:
                    rd_place(pl)
            for st in b["stmts"]:
                if st["s"] == "assign":
                    for l in _rv_locals(st["rv"]):
                        rd(l)
                    dst = st["dst"]
                    if dst["proj"]:
                        rd_place(dst)
                    else:
                        d.add(dst["local"])
                elif st["s"] == "setdiscr":
                    rd_place(st["place"])
                elif st["s"] == "assume":
                    rd_op(st["op"])
            t = b["term"]
            k = t["t"]
            if k == "switch":
                rd_op(t["discr"])
            elif k == "call":
                for a in t["args"]:
                    rd_op(a)
                ind = t["callee"].get("indirect")
                if ind:
                    rd_op(ind)
                if t.get("dst"):
                    if t["dst"]["proj"]:
                        rd_place(t["dst"])
                    else:
                        d.add(t["dst"]["local"])
            elif k == "assert":
                rd_op(t["cond"])
            elif k == "drop":
                rd_place(t["place"])
            elif k == "return":
                rd(0)
            use[b["id"]] = u
            defs[b["id"]] = d
        cfg = fn.cfg
        live_in = {b["id"]: set() for b in fn.blocks}
        changed = True
        while changed:
            changed = False
            for b in reversed(fn.blocks):
                i = b["id"]
                out = set()
                for sx in cfg.succ.get(i, []):
                    if sx >= cfg.n:
                        sx = cfg.edge_nodes[sx].dst
                    out |= live_in[sx]
                new = use[i] | (out - defs[i])
                if new != live_in[i]:
                    live_in[i] = new
                    changed = True
        fn._live_in = live_in
        return live_in

    STD_DISCR = {("std::option::Option", "None"): 0, ("std::option::Option", "Some"): 1,
                 ("std::result::Result", "Ok"): 0, ("std::result::Result", "Err"): 1,
                 ("std::ops::ControlFlow", "Continue"): 0, ("std::ops::ControlFlow", "Break"): 1}

    def _discr_value(self, adt_path, variant):
        a = self.p.adts.get(adt_path)
        if a is None:
            v = self.STD_DISCR.get((adt_path, variant))
            if v is None:
                v = self.ext_discr.get((adt_path, variant))
            return v
        for v in a["variants"]:
            if v["name"] == variant:
                return v["discr"]
        return None

    def tag_place(self, vals, st, pl):
        t = vals.get(pl["local"])
        proj = pl["proj"]
        # reading the life-cycle field itself
        if proj and proj[-1].get("name") == STATE_FIELD:
            return ("enum", self.adt_path, st[0], ())
        i = 0
        while i < len(proj):
            e = proj[i]
            if "deref" in e:
                if t is not None and t[0] == "ref":
                    t = t[1]
                i += 1
                continue
            if t is None:
                return None
            if "downcast" in e:
                if t[0] == "enum" and t[2] == e["downcast"]:
                    i += 1
                    continue
                return None
            if "field" in e:
                if t[0] in ("enum", "tuple") and e["field"] < len(t[3] if t[0] == "enum" else t[1]):
                    t = (t[3] if t[0] == "enum" else t[1])[e["field"]]
                    i += 1
                    continue
                return None
            return None
        return t

    def tag_op(self, vals, st, o):
        if "const" in o:
            c = o["const"]
            if c.get("int") is not None:
                if c.get("ty") == "bool":
                    return ("bool", bool(c["int"]))
                return ("int", c["int"])
            if c.get("ty") == "fn":
                return ("fnitem", c.get("def"))
            if c.get("closure"):
                return ("closure", c["closure"])
            return None
        return self.tag_place(vals, st, op_place(o))

    def eval_binop(self, op, a, b):
        if a is None or b is None:
            return None
        if op.endswith("WithOverflow"):
            return None
        ka, kb = a[0], b[0]
        if ka == "int" and kb == "int":
            x, y = a[1], b[1]
            try:
                return {"Eq": ("bool", x == y), "Ne": ("bool", x != y), "Lt": ("bool", x < y),
                        "Le": ("bool", x <= y), "Gt": ("bool", x > y), "Ge": ("bool", x >= y),
                        "Add": ("int", x + y), "Sub": ("int", x - y)}.get(op)
            except Exception:
                return None
        if ka == "bool" and kb == "bool":
            x, y = a[1], b[1]
            return {"Eq": ("bool", x == y), "Ne": ("bool", x != y), "BitAnd": ("bool", x and y),
                    "BitOr": ("bool", x or y), "BitXor": ("bool", x != y)}.get(op)
        # level (0 or '+', an unsigned quantity) against a constant
        if ka == "level" and kb == "int":
            L, y = a[1], b[1]
            if L == 0:
                return self.eval_binop(op, ("int", 0), b)
            # L >= 1
            if y <= 0:
                return {"Eq": ("bool", False), "Ne": ("bool", True), "Gt": ("bool", True),
                        "Ge": ("bool", True), "Lt": ("bool", False), "Le": ("bool", False)}.get(op)
            if y == 1:
                return {"Ge": ("bool", True), "Lt": ("bool", False)}.get(op)
            return None
        if ka == "int" and kb == "level":
            flip = {"Eq": "Eq", "Ne": "Ne", "Lt": "Gt", "Le": "Ge", "Gt": "Lt", "Ge": "Le"}
            if op in flip:
                return self.eval_binop(flip[op], b, a)
            return None
        if ka == "level" and kb == "level":
            return None
        if ka == "level" and op in ("Gt",) and a[1] == 0:
            return ("bool", False)     # 0 > (unsigned) is false
        if ka == "level" and op in ("Le",) and a[1] == 0:
            return ("bool", True)
        if kb == "level" and op in ("Lt",) and b[1] == 0:
            return ("bool", False)
        if kb == "level" and op in ("Ge",) and b[1] == 0:
            return ("bool", True)
        return None

    # ---------------------------------------------------------------------------------------
    def _run(self, fn, st0, argtags):
        self.fn_runs += 1
        self.reached.setdefault(fn.defn, set()).add(st0)
        cfg = fn.cfg
        panic_only = self._panic_only(fn)
        live_in = self._liveness(fn)
        vals0 = {}
        for i, t in enumerate(argtags):
            if t is not None and i < len(fn.args):
                vals0[fn.args[i]["local"]] = t
        start = (st0, frozenset(vals0.items()))
        GATE = -1            # pseudo-local carrying the gate through an assertion-failure region
        gate_alive = set()   # (switch bb, st) for which some world continued normally
        local_panics = []
        at = {0: {start}}
        work = [(0, start)]
        exits = set()
        while work:
            bb, w = work.pop()
            self.steps += 1
            if self.steps > 3_000_000:
                raise RuntimeError("typestate: step budget exceeded in %s" % fn.defn)
            st, fv = w
            vals = dict(fv)
            blk = fn.blocks[bb]
            if blk.get("cleanup"):
                continue
            for s in blk["stmts"]:
                st = self._stmt(fn, s, st, vals)
            term = blk["term"]
            k = term["t"]
            outs = []   # (next block, st, vals)
            if k == "goto":
                outs.append((term["target"], st, vals))
            elif k == "return":
                exits.add((st, vals.get(0)))
            elif k in ("drop", "assert"):
                outs.append((term["target"], st, vals))
            elif k == "switch":
                t = self.tag_op(vals, st, term["discr"])
                val = None
                if t is not None:
                    if t[0] == "bool":
                        val = 1 if t[1] else 0
                    elif t[0] == "int":
                        val = t[1]
                    elif t[0] == "discr":
                        val = t[1]
                    elif t[0] == "level" and t[1] == 0:
                        val = 0
                    elif t[0] == "level":
                        # non-zero: decided only if 0 is the single explicit target
                        if [v for v, _ in term["targets"]] == [0]:
                            val = "otherwise"
                if val is not None:
                    tgt = None
                    if val != "otherwise":
                        for v, b2 in term["targets"]:
                            if v == val:
                                tgt = b2
                    if tgt is None:
                        tgt = term["otherwise"]
                    if tgt in panic_only and bb not in panic_only:
                        v3 = dict(vals)
                        v3[GATE] = ("gate", bb, st)
                        outs.append((tgt, st, v3))
                    else:
                        if bb not in panic_only:
                            gate_alive.add((bb, st))
                        outs.append((tgt, st, vals))
                else:
                    succs = []
                    for e in cfg.edges[bb]:
                        succs.append(e)
                    live = [e for e in succs if e.dst not in panic_only]
                    if not live:
                        live = succs
                    elif bb not in panic_only:
                        gate_alive.add((bb, st))
                    for e in live:
                        outs.append((e.dst, st, vals))
            elif k == "call":
                from .facts import Call
                c = None
                for cc in fn.calls:
                    if cc.bb == bb:
                        c = cc
                        break
                for (st2, rtag) in self._call(fn, c, st, vals):
                    if c.target is None:
                        continue
                    v2 = dict(vals)
                    if c.dst is not None:
                        if c.dst["proj"]:
                            v2.pop(c.dst["local"], None)
                        elif rtag is None:
                            v2.pop(c.dst["local"], None)
                        else:
                            v2[c.dst["local"]] = rtag
                    # arguments moved into a call are dead afterwards; drop their tags to keep
                    # the number of worlds small
                    for a in c.args:
                        if "move" in a and not a["move"]["proj"]:
                            v2.pop(a["move"]["local"], None)
                    outs.append((c.target, st2, v2))
                if c.target is None:
                    local_panics.append((vals.get(GATE), bb, c, st))
            elif k in ("unreachable", "resume", "terminate", "tailcall"):
                pass
            for (nb, st2, v2) in outs:
                lv = live_in[nb]
                w2 = (st2, frozenset((l, t) for l, t in v2.items() if l in lv or l == GATE))
                seen = at.setdefault(nb, set())
                if w2 not in seen:
                    seen.add(w2)
                    work.append((nb, w2))
        # a panic is definite when the branch that led into the assertion-failure region was
        # taken by every world with that abstract state (the outcome is a function of the state)
        for gate, bb, c, st in local_panics:
            if gate is not None and (gate[1], gate[2]) in gate_alive:
                continue
            key = (fn.defn, c.span, st)
            if key not in self.panics:
                self.panics[key] = Panic(fn, bb, c.span, st, c.target_def or "", list(self.stack))
        return frozenset(exits)

    # ---------------------------------------------------------------------------------------
    def _stmt(self, fn, s, st, vals):
        if s["s"] == "setdiscr":
            pl = s["place"]
            if pl["proj"] and pl["proj"][-1].get("name") == STATE_FIELD and s.get("variant"):
                return self._set_state(fn, st, s["variant"], fn.span)
            vals.pop(pl["local"], None)
            return st
        if s["s"] != "assign":
            return st
        dst = s["dst"]
        rv = s["rv"]
        r = rv["r"]
        tag = None
        if r == "use":
            tag = self.tag_op(vals, st, rv["op"])
        elif r == "aggregate":
            self.ext_discr.setdefault((rv["adt"], rv["variant"]), rv.get("vidx"))
            tag = ("enum", rv["adt"], rv["variant"],
                   tuple(self.tag_op(vals, st, f) for f in rv["fields"]))
        elif r == "tuple":
            tag = ("tuple", tuple(self.tag_op(vals, st, f) for f in rv["fields"]))
        elif r == "closure":
            tag = ("closure", rv["def"])
        elif r == "discr":
            t = self.tag_place(vals, st, rv["place"])
            if t is not None and t[0] == "enum":
                dv = self._discr_value(t[1], t[2])
                if dv is not None:
                    tag = ("discr", dv)
        elif r == "binop":
            tag = self.eval_binop(rv["op"], self.tag_op(vals, st, rv["a"]), self.tag_op(vals, st, rv["b"]))
        elif r == "unop":
            t = self.tag_op(vals, st, rv["v"])
            if t is not None and t[0] == "bool" and rv["op"] == "Not":
                tag = ("bool", not t[1])
        elif r == "cast":
            t = self.tag_op(vals, st, rv["v"])
            if t is not None and t[0] in ("int", "level") and rv["kind"] == "IntToInt":
                tag = t
        elif r == "ref":
            t = self.tag_place(vals, st, rv["place"])
            if t is not None:
                tag = ("ref", t)
        # destination
        if dst["proj"]:
            if dst["proj"][-1].get("name") == STATE_FIELD:
                if tag is not None and tag[0] == "enum" and tag[1] == self.adt_path:
                    return self._set_state(fn, st, tag[2], "%s:%s" % (fn.file, s.get("line")))
                raise AnchorMissing("assignment to %s of a value the interpreter cannot name (in %s)"
                                    % (STATE_FIELD, fn.defn))
            # partial write into a tracked aggregate: forget it (unless it writes through a ref)
            if "deref" not in dst["proj"][0]:
                vals.pop(dst["local"], None)
            return st
        if tag is None or dst["local"] in self._mut_borrowed(fn):
            # a local whose address is taken mutably (e.g. captured by a closure that updates
            # it) can change behind the interpreter's back: never trust a tag for it
            vals.pop(dst["local"], None)
        else:
            vals[dst["local"]] = tag
        return st

    def _mut_borrowed(self, fn):
        mb = getattr(fn, "_mut_borrowed", None)
        if mb is None:
            mb = set()
            for b in fn.blocks:
                for s in b["stmts"]:
                    if s["s"] == "assign" and s["rv"]["r"] in ("ref", "rawptr") and s["rv"].get("mut"):
                        pl = s["rv"]["place"]
                        if not any("deref" in e for e in pl["proj"]):
                            mb.add(pl["local"])
            fn._mut_borrowed = mb
        return mb

    ROOT_CONFLICT = 2     # bit of X: the current Conflict was declared at decision level 0

    def _set_state(self, fn, st, new, site):
        """assignment to the life-cycle field; X bit 1 remembers that a conflict was declared at
        the root (a refutation of the model, which may only become Infeasible)"""
        s0, l0, x = st
        rooted = bool(x & self.ROOT_CONFLICT)
        old = s0 + ("@root" if (s0 == "Conflict" and rooted) else "")
        self.transitions.setdefault((old, l0, new), (fn.defn, site))
        if new == "Conflict" and l0 == 0:
            x |= self.ROOT_CONFLICT
        elif new == "Conflict" and s0 == "Conflict":
            pass
        else:
            x &= ~self.ROOT_CONFLICT
        return (new, l0, x)

    # ---------------------------------------------------------------------------------------
    def _call(self, fn, c, st, vals):
        """returns list of (st', return tag)"""
        p = self.p
        name = c.name
        tdef = c.target_def or ""
        argtags = tuple(self.tag_op(vals, st, a) for a in c.args)
        st = self.track_x(c, st)
        if self.bool_model is not None:
            bm = self.bool_model(fn, c)
            if bm is not None:
                return [(st, ("bool", bool(bm)))]
        # ---- level primitives
        if tdef.endswith("Assignments::increase_decision_level"):
            return [((st[0], "+") + st[2:], None)]
        if tdef.endswith("Assignments::get_decision_level"):
            return [(st, ("level", st[1]))]
        if tdef.endswith("ConstraintSatisfactionSolver::backtrack") or \
                tdef.endswith("Assignments::synchronise"):
            # the target level is the first integer-typed argument
            lvl = None
            for a, aty, t in zip(c.args, c.term.get("arg_tys", []), argtags):
                if aty == "usize":
                    lvl = t
                    break
            if lvl is not None and lvl[0] == "int" and lvl[1] == 0:
                return [((st[0], 0) + st[2:], None)]
            if lvl is not None and lvl[0] == "level" and lvl[1] == 0:
                return [((st[0], 0) + st[2:], None)]
            return [((st[0], 0) + st[2:], None), ((st[0], "+") + st[2:], None)]
        # ---- modelled std functions
        if c.trait == "std::ops::Try" and name == "branch":
            t = argtags[0] if argtags else None
            cf = "std::ops::ControlFlow"
            if t is not None and t[0] == "enum" and t[2] in ("Ok", "Some"):
                return [(st, ("enum", cf, "Continue", (t[3][0] if t[3] else None,)))]
            if t is not None and t[0] == "enum" and t[2] in ("Err", "None"):
                return [(st, ("enum", cf, "Break", (t,)))]
            return [(st, None)]
        if c.trait == "std::ops::FromResidual" and name == "from_residual":
            t = argtags[0] if argtags else None
            if t is not None and t[0] == "enum" and t[2] in ("Err", "None"):
                return [(st, ("enum", t[1], t[2], (None,) if t[2] == "Err" else ()))]
            return [(st, None)]
        if name in ("is_err", "is_ok", "is_some", "is_none") and not c.callee.get("local"):
            t = argtags[0] if argtags else None
            if t is not None and t[0] == "ref":
                t = t[1]
            if t is not None and t[0] == "enum" and t[2] in ("Ok", "Err", "Some", "None"):
                truth = {"is_err": t[2] == "Err", "is_ok": t[2] == "Ok", "is_some": t[2] == "Some",
                         "is_none": t[2] == "None"}[name]
                return [(st, ("bool", truth))]
            return [(st, None)]
        # ---- closures handed to foreign higher-order functions
        closures = [t for t in argtags if t is not None and t[0] == "closure"
                    and t[1] in self.relevant and t[1] in p.fns]
        cands = [g for g in p.callees(c)]
        if closures and not any(g.defn in self.relevant for g in cands):
            res = []
            inp = argtags[0] if argtags else None
            for t in closures:
                cf = p.fns[t[1]]
                called = self.summary(cf, st, ())
                if name == "map_err":
                    rpath = "std::result::Result"
                    if not (inp is not None and inp[0] == "enum" and inp[2] == "Err"):
                        res.append((st, ("enum", rpath, "Ok", (None,))))
                    if not (inp is not None and inp[0] == "enum" and inp[2] == "Ok"):
                        for (st2, rt) in called:
                            res.append((st2, ("enum", rpath, "Err", (rt,))))
                elif name == "try_for_each":
                    # calls the closure for each element until it fails: Ok(()) if every call returned Ok
                    # (also for no element at all), otherwise the first Err
                    rpath = "std::result::Result"
                    seen = {st}
                    frontier = [st]
                    res.append((st, ("enum", rpath, "Ok", (None,))))
                    while frontier:
                        s0 = frontier.pop()
                        for (st2, rt) in self.summary(cf, s0, ()):
                            if rt is not None and rt[0] == "enum" and rt[2] in ("Err", "Break"):
                                res.append((st2, ("enum", rpath, "Err", (None,))))
                                continue
                            if rt is None or rt[0] != "enum":
                                res.append((st2, None))
                            else:
                                res.append((st2, ("enum", rpath, "Ok", (None,))))
                            if st2 not in seen:
                                seen.add(st2)
                                frontier.append(st2)
                else:
                    # may be called any number of times
                    seen = {st}
                    frontier = [st]
                    while frontier:
                        s0 = frontier.pop()
                        for (st2, _rt) in self.summary(cf, s0, ()):
                            if st2 not in seen:
                                seen.add(st2)
                                frontier.append(st2)
                    for s2 in seen:
                        res.append((s2, None))
            return res
        # ---- local functions that can observe or change the life-cycle
        rel = [g for g in cands if g.defn in self.relevant]
        if rel:
            res = []
            for g in rel:
                # pass only small tags of arguments (keeps the summary key space small)
                at = tuple(t if (t is not None and t[0] in ("int", "bool", "level", "closure"))
                           else None for t in argtags)
                if not any(at):
                    at = ()
                for (st2, rt) in self.summary(g, st, at):
                    res.append((st2, rt))
            if len(rel) < len(cands) or (c.trait and not c.resolved and not cands):
                res.append((st, None))
            return res
        return [(st, None)]

"""Inlined views of a function (facts level).

Many rules are anchored in one function (a procedure's `optimise`, `Solver::satisfy`, a context's
`set_lower_bound`) and look at what happens on its paths.  Maintainers move code between such a
function and private helpers of the same file all the time (extract a helper, inline one, split a
long function); the behaviour, and the truth of the property, is unchanged.  `view(prog, f)`
returns a synthetic function in which the bodies of the helpers `f` calls — functions of the same
file, resolved statically, not recursive — are spliced into the caller's MIR: the callee's locals
and blocks are renumbered, its parameters are assigned from the call's operands, and every `return`
becomes an assignment of the callee's return place to the call's destination followed by a jump to
the call's target.  Rules that run on the view see the same paths whichever way the code is
split.  Nothing is executed; it is a rewriting of the extracted facts.
"""
import copy

from .facts import Fn


def _is_place(d):
    return isinstance(d, dict) and "proj" in d and isinstance(d.get("local"), int) and not isinstance(d.get("local"), bool)


def _rename(node, L, B, in_term=False):
    """shift every local by L and every block reference by B in a statement / terminator (in place)"""
    if isinstance(node, list):
        for x in node:
            _rename(x, L, B, in_term)
        return
    if not isinstance(node, dict):
        return
    if _is_place(node):
        node["local"] += L
        for e in node["proj"]:
            if "index" in e and isinstance(e["index"], int):
                e["index"] += L
        return
    for k, v in node.items():
        if k == "callee":
            continue
        if in_term and k in ("target", "unwind", "otherwise") and isinstance(v, int) and not isinstance(v, bool):
            node[k] = v + B
        elif in_term and k == "targets" and isinstance(v, list):
            node[k] = [[a, b + B] for a, b in v]
        else:
            _rename(v, L, B, in_term)


class InlinedFn(Fn):
    def __init__(self, rec, prog, root, inlined):
        Fn.__init__(self, rec, prog)
        self.root = root
        self.inlined = inlined          # [Fn] spliced in

    @property
    def closures(self):
        out = list(self.root.closures)
        seen = {g.defn for g in out}
        for h in self.inlined:
            for g in h.closures:
                if g.defn not in seen:
                    seen.add(g.defn)
                    out.append(g)
        return out


def default_want(root):
    def want(g):
        return g.file == root.file and g.kind != "Closure" and "/tests" not in g.file
    return want


def view(prog, f, want=None, depth=3, max_blocks=4000):
    """synthetic Fn: f with the calls to functions accepted by `want` spliced in (default: helpers
    of the same file), transitively up to `depth` levels, never recursively"""
    cache = prog.__dict__.setdefault("_views", {})
    key = (f.defn, depth, want is None)
    if want is None and key in cache:
        return cache[key]
    want = want or default_want(f)
    blocks = copy.deepcopy(f.blocks)
    locals_ = copy.deepcopy(f.locals)
    level = {b["id"]: 0 for b in blocks}
    chain = {b["id"]: (f.defn,) for b in blocks}
    inlined = []
    i = 0
    while i < len(blocks):
        b = blocks[i]
        i += 1
        t = b["term"]
        if t["t"] != "call" or b.get("cleanup"):
            continue
        if level[b["id"]] >= depth or len(blocks) > max_blocks:
            continue
        cal = t.get("callee") or {}
        tgt = cal.get("resolved") or cal.get("def")
        g = prog.fns.get(tgt) if tgt else None
        if g is None or g is f or g.defn in chain[b["id"]] or not want(g) or not g.blocks:
            continue
        if len(t["args"]) != len(g.args):
            continue
        L = len(locals_)
        B = len(blocks)
        for l in g.locals:
            l2 = dict(l)
            l2["id"] = l["id"] + L
            l2["inlined_from"] = g.defn
            locals_.append(l2)
        newb = copy.deepcopy(g.blocks)
        for nb in newb:
            nb["id"] += B
            for st in nb["stmts"]:
                _rename(st, L, B, False)
            _rename(nb["term"], L, B, True)
            nb["inlined_from"] = g.defn
            level[nb["id"]] = level[b["id"]] + 1
            chain[nb["id"]] = chain[b["id"]] + (g.defn,)
            if nb["term"]["t"] == "return":
                line = nb.get("line")
                if t.get("dst") is not None:
                    nb["stmts"].append({"s": "assign", "dst": copy.deepcopy(t["dst"]),
                                        "rv": {"r": "use", "op": {"move": {"local": L, "proj": []}}},
                                        "line": line, "exp": False, "inline_return": g.defn})
                if t.get("target") is not None:
                    nb["term"] = {"t": "goto", "target": t["target"]}
                else:
                    nb["term"] = {"t": "unreachable"}
        # parameter passing at the call site
        line = b.get("line")
        for a, op in zip(g.args, t["args"]):
            b["stmts"].append({"s": "assign", "dst": {"local": a["local"] + L, "proj": []},
                               "rv": {"r": "use", "op": copy.deepcopy(op)}, "line": line, "exp": False,
                               "inline_arg": g.defn})
        b["inlined_call"] = {"callee": g.defn, "span": t.get("span"), "name": g.name}
        b["term"] = {"t": "goto", "target": B}
        blocks.extend(newb)
        inlined.append(g)
    rec = dict(f.rec)
    rec["blocks"] = blocks
    rec["locals"] = locals_
    out = InlinedFn(rec, prog, f, inlined)
    if key[2]:
        cache[key] = out
    return out

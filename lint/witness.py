"""E3: compile-fail witnesses.  `cargo +nightly test --doc` on /verif/witness (path-depends on
/repo/pumpkin-solver): each witness must fail to compile with its error code, each twin must
compile.  Nothing is executed (`no_run`)."""
import os
import re
import shutil
import subprocess

VERIF = os.path.dirname(os.path.dirname(os.path.abspath(__file__)))
WITNESSES = {
    "C05": ["CoreGuardBorrows"],
    "C09": ["ReifyNeedsNegation"],
    "C10": ["CoreGuardBorrows", "IteratorBorrows", "PosterBorrows"],
}


def run(prop, led):
    names = WITNESSES.get(prop)
    if not names:
        return {}
    wdir = os.path.join(VERIF, "witness")
    try:
        shutil.copy("/repo/Cargo.lock", os.path.join(wdir, "Cargo.lock"))
    except OSError:
        pass
    env = dict(os.environ, CARGO_NET_OFFLINE="true",
               CARGO_TARGET_DIR=os.path.join(VERIF, ".cache", "target-witness"))
    r = subprocess.run(["cargo", "+nightly", "test", "--doc", "--offline"], cwd=wdir, env=env,
                       stdout=subprocess.PIPE, stderr=subprocess.STDOUT, text=True)
    out = r.stdout
    res = {}
    for m in re.finditer(r"test src/lib.rs - (\w+) \(line \d+\) - (compile fail|compile) \.\.\. (\w+)", out):
        res.setdefault(m.group(1), []).append((m.group(2), m.group(3)))
    n_ok = 0
    for nm in names:
        got = res.get(nm, [])
        fails = [g for g in got if g[0] == "compile fail"]
        twins = [g for g in got if g[0] == "compile"]
        ok = bool(fails) and bool(twins) and all(g[1] == "ok" for g in got)
        if ok:
            n_ok += 1
            led.ok("WITNESS", nm, "witness/src/lib.rs", "does not type-check (with the stated error code); twin compiles")
        else:
            led.bad("WITNESS", nm, "witness/src/lib.rs",
                    "compile-fail witness %s no longer holds (results %s): the type-level guarantee it "
                    "stands for is gone, or the witness no longer names the API correctly\n%s"
                    % (nm, got, out[-1500:] if not got else ""))
    led.rule("WITNESS", "compile_fail doc-tests with error codes + compiling twins (cargo +nightly test --doc)")
    return {"witnesses_compiled_failed": n_ok, "witnesses_total": len(names)}

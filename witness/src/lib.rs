//! Compile-fail witnesses (E3).  Each witness is a `compile_fail,E…` doc-test paired with a twin
//! that differs only in the offending line and must compile (`no_run`: nothing is executed).
//! Run with `cargo +nightly test --doc --offline` (the error code is only checked on nightly).

/// A7 / T5 — the core guard borrows the solver exclusively.
/// ```compile_fail,E0499
/// use pumpkin_solver::{Solver, predicate, termination::Indefinite};
/// let mut solver = Solver::default();
/// let x = solver.new_bounded_integer(0, 1);
/// let mut brancher = solver.default_brancher();
/// let result = solver.satisfy_under_assumptions(&mut brancher, &mut Indefinite, &[predicate!(x >= 1)]);
/// let _y = solver.new_bounded_integer(0, 1); // solver still borrowed by `result`
/// drop(result);
/// ```
///
/// Twin: after dropping the result the solver is usable again.
/// ```no_run
/// use pumpkin_solver::{Solver, predicate, termination::Indefinite};
/// let mut solver = Solver::default();
/// let x = solver.new_bounded_integer(0, 1);
/// let mut brancher = solver.default_brancher();
/// let result = solver.satisfy_under_assumptions(&mut brancher, &mut Indefinite, &[predicate!(x >= 1)]);
/// drop(result);
/// let _y = solver.new_bounded_integer(0, 1);
/// ```
pub struct CoreGuardBorrows;

/// R6 — `reify` needs a negatable constraint; cumulative is not one.
/// ```compile_fail,E0599
/// use pumpkin_solver::{Solver, constraints};
/// let mut solver = Solver::default();
/// let x = solver.new_bounded_integer(0, 3);
/// let r = solver.new_literal();
/// let _ = solver.add_constraint(constraints::cumulative([x], [1], [1], 1)).reify(r);
/// ```
///
/// Twin: half-reification is available.
/// ```no_run
/// use pumpkin_solver::{Solver, constraints};
/// let mut solver = Solver::default();
/// let x = solver.new_bounded_integer(0, 3);
/// let r = solver.new_literal();
/// let _ = solver.add_constraint(constraints::cumulative([x], [1], [1], 1)).implied_by(r);
/// ```
pub struct ReifyNeedsNegation;

/// T5 — the solution iterator borrows the solver exclusively.
/// ```compile_fail,E0499
/// use pumpkin_solver::{Solver, termination::Indefinite};
/// let mut solver = Solver::default();
/// let _x = solver.new_bounded_integer(0, 1);
/// let mut brancher = solver.default_brancher();
/// let mut termination = Indefinite;
/// let mut iterator = solver.get_solution_iterator(&mut brancher, &mut termination);
/// let _y = solver.new_bounded_integer(0, 1); // an unfinished iteration owns the solver
/// let _ = iterator.next_solution();
/// ```
///
/// Twin: once the iterator is gone the solver is free.
/// ```no_run
/// use pumpkin_solver::{Solver, termination::Indefinite};
/// let mut solver = Solver::default();
/// let _x = solver.new_bounded_integer(0, 1);
/// let mut brancher = solver.default_brancher();
/// let mut termination = Indefinite;
/// let mut iterator = solver.get_solution_iterator(&mut brancher, &mut termination);
/// let _ = iterator.next_solution();
/// drop(iterator);
/// let _y = solver.new_bounded_integer(0, 1);
/// ```
pub struct IteratorBorrows;

/// T5 — a constraint poster borrows the solver until it is consumed.
/// ```compile_fail,E0499
/// use pumpkin_solver::{Solver, constraints};
/// let mut solver = Solver::default();
/// let x = solver.new_bounded_integer(0, 3);
/// let poster = solver.add_constraint(constraints::equals([x], 1));
/// let _r = solver.new_literal(); // the pending posting owns the solver
/// let _ = poster.post();
/// ```
///
/// Twin:
/// ```no_run
/// use pumpkin_solver::{Solver, constraints};
/// let mut solver = Solver::default();
/// let x = solver.new_bounded_integer(0, 3);
/// let poster = solver.add_constraint(constraints::equals([x], 1));
/// let _ = poster.post();
/// let _r = solver.new_literal();
/// ```
pub struct PosterBorrows;
